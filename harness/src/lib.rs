//! Shared code of the verification harness binaries (`vh` and `src/bin/*`).
//! Every binary reads one JSON case per stdin line and writes one JSON result
//! per stdout line (same order).  Panics are caught and reported.
use std::io::{BufRead, Write};

use quote::ToTokens;
use serde_json::{json, Value};
use typify_impl::{
    CrateVers, TypeDetails, TypeEnumVariant, TypeId, TypeSpace, TypeSpaceImpl, TypeSpacePatch,
    TypeSpaceSettings, UnknownPolicy,
};

pub fn run_lines<F>(f: F)
where
    F: Fn(&Value) -> Value + std::panic::RefUnwindSafe,
{
    std::panic::set_hook(Box::new(|_| {}));
    let stdin = std::io::stdin();
    let stdout = std::io::stdout();
    let mut out = std::io::BufWriter::new(stdout.lock());
    for line in stdin.lock().lines() {
        let line = line.expect("stdin");
        if line.trim().is_empty() {
            continue;
        }
        let v: Value = match serde_json::from_str(&line) {
            Ok(v) => v,
            Err(e) => {
                writeln!(out, "{}", json!({"r":"badcase","msg":e.to_string()})).unwrap();
                continue;
            }
        };
        let res = std::panic::catch_unwind(|| f(&v));
        let res = match res {
            Ok(r) => r,
            Err(e) => json!({"r":"panic","msg":panic_msg(&e)}),
        };
        writeln!(out, "{}", res).unwrap();
    }
}

pub fn panic_msg(e: &Box<dyn std::any::Any + Send>) -> String {
    if let Some(s) = e.downcast_ref::<String>() {
        s.clone()
    } else if let Some(s) = e.downcast_ref::<&str>() {
        s.to_string()
    } else {
        "?".to_string()
    }
}

pub fn err_kind(e: &typify_impl::Error) -> Value {
    use typify_impl::Error::*;
    match e {
        BadValue(a, _) => json!({"r":"err","kind":"BadValue","msg":a}),
        InvalidTypeId => json!({"r":"err","kind":"InvalidTypeId"}),
        InvalidValue => json!({"r":"err","kind":"InvalidValue"}),
        InvalidSchema { reason, .. } => {
            json!({"r":"err","kind":"InvalidSchema","msg":reason})
        }
    }
}

fn impls_of(v: &Value) -> Vec<TypeSpaceImpl> {
    v.as_array()
        .map(|a| {
            a.iter()
                .filter_map(|x| x.as_str().and_then(|s| s.parse::<TypeSpaceImpl>().ok()))
                .collect()
        })
        .unwrap_or_default()
}

/// Settings from JSON:
/// {struct_builder:bool, derives:[..], map_type:str, type_mod:str,
///  unknown_crates:"generate|allow|deny", crates:[{name,version,rename}],
///  patch:{name:{rename,derives}}, replace:{name:{type,impls}},
///  convert:[{schema,type,impls}]}
pub fn settings_from_json(v: &Value) -> TypeSpaceSettings {
    let mut s = TypeSpaceSettings::default();
    if let Some(b) = v["struct_builder"].as_bool() {
        s.with_struct_builder(b);
    }
    if let Some(a) = v["derives"].as_array() {
        for d in a {
            s.with_derive(d.as_str().unwrap().to_string());
        }
    }
    if let Some(m) = v["map_type"].as_str() {
        s.with_map_type(m);
    }
    if let Some(m) = v["type_mod"].as_str() {
        s.with_type_mod(m);
    }
    if let Some(p) = v["unknown_crates"].as_str() {
        s.with_unknown_crates(match p {
            "allow" => UnknownPolicy::Allow,
            "deny" => UnknownPolicy::Deny,
            _ => UnknownPolicy::Generate,
        });
    }
    if let Some(a) = v["crates"].as_array() {
        for c in a {
            let vers = CrateVers::parse(c["version"].as_str().unwrap()).expect("crate version");
            let rename = c["rename"].as_str().map(|x| x.to_string());
            s.with_crate(c["name"].as_str().unwrap(), vers, rename.as_ref());
        }
    }
    if let Some(o) = v["patch"].as_object() {
        for (k, p) in o {
            let mut tp = TypeSpacePatch::default();
            if let Some(r) = p["rename"].as_str() {
                tp.with_rename(r);
            }
            if let Some(ds) = p["derives"].as_array() {
                for d in ds {
                    tp.with_derive(d.as_str().unwrap());
                }
            }
            s.with_patch(k, &tp);
        }
    }
    if let Some(o) = v["replace"].as_object() {
        for (k, p) in o {
            s.with_replacement(k, p["type"].as_str().unwrap(), impls_of(&p["impls"]).into_iter());
        }
    }
    if let Some(a) = v["convert"].as_array() {
        for c in a {
            let so: schemars::schema::SchemaObject =
                serde_json::from_value(c["schema"].clone()).expect("convert schema");
            s.with_conversion(so, c["type"].as_str().unwrap(), impls_of(&c["impls"]).into_iter());
        }
    }
    s
}

/// One ingestion step: {"op":"root","doc":..} | {"op":"refs","defs":{..}} |
/// {"op":"add","schema":..,"name":opt}
pub fn ingest_step(ts: &mut TypeSpace, step: &Value) -> Value {
    let r = std::panic::catch_unwind(std::panic::AssertUnwindSafe(|| {
        match step["op"].as_str().unwrap_or("root") {
            "root" => {
                let rs: schemars::schema::RootSchema = match serde_json::from_value(step["doc"].clone()) {
                    Ok(r) => r,
                    Err(e) => return json!({"r":"badschema","msg":e.to_string()}),
                };
                match ts.add_root_schema(rs) {
                    Ok(id) => json!({"r":"ok","id":id.map(|i| TypeSpace::verif_id(&i))}),
                    Err(e) => err_kind(&e),
                }
            }
            "refs" => {
                let defs: Vec<(String, schemars::schema::Schema)> = match step["defs"]
                    .as_object()
                    .unwrap()
                    .iter()
                    .map(|(k, v)| serde_json::from_value(v.clone()).map(|s| (k.clone(), s)))
                    .collect::<Result<_, _>>()
                {
                    Ok(d) => d,
                    Err(e) => return json!({"r":"badschema","msg":e.to_string()}),
                };
                match ts.add_ref_types(defs) {
                    Ok(()) => json!({"r":"ok","id":null}),
                    Err(e) => err_kind(&e),
                }
            }
            _ => {
                let s: schemars::schema::Schema = match serde_json::from_value(step["schema"].clone()) {
                    Ok(r) => r,
                    Err(e) => return json!({"r":"badschema","msg":e.to_string()}),
                };
                let name = step["name"].as_str().map(|x| x.to_string());
                match ts.add_type_with_name(&s, name) {
                    Ok(id) => json!({"r":"ok","id":TypeSpace::verif_id(&id)}),
                    Err(e) => err_kind(&e),
                }
            }
        }
    }));
    match r {
        Ok(v) => v,
        Err(e) => json!({"r":"panic","msg":panic_msg(&e)}),
    }
}

fn ids(v: impl Iterator<Item = TypeId>) -> Vec<u64> {
    v.map(|i| TypeSpace::verif_id(&i)).collect()
}

/// What the public introspection API reports for every type of iter_types().
pub fn api_types(ts: &TypeSpace) -> Vec<Value> {
    let dump = ts.verif_dump();
    // iter_types() yields entries in id order, as does the dump
    let idlist: Vec<u64> = {
        let mut v: Vec<u64> = dump["entries"].as_object().unwrap().keys().map(|k| k.parse().unwrap()).collect();
        v.sort();
        v
    };
    ts.iter_types()
        .zip(idlist)
        .map(|(ty, raw)| {
            let details = match ty.details() {
                TypeDetails::Enum(e) => json!({"k":"enum","variants": e.variants_info().map(|vi| json!({
                    "name": vi.name,
                    "details": match vi.details {
                        TypeEnumVariant::Simple => json!({"k":"simple"}),
                        TypeEnumVariant::Tuple(t) => json!({"k":"tuple","ids": ids(t.into_iter())}),
                        TypeEnumVariant::Struct(p) => json!({"k":"struct","props": p.into_iter().map(|(n,i)| json!([n, TypeSpace::verif_id(&i)])).collect::<Vec<_>>()}),
                    }})).collect::<Vec<_>>()}),
                TypeDetails::Struct(s) => json!({"k":"struct","props": s.properties_info().map(|p| json!({
                    "name": p.name, "required": p.required, "type_id": TypeSpace::verif_id(&p.type_id)})).collect::<Vec<_>>()}),
                TypeDetails::Newtype(n) => json!({"k":"newtype","inner": TypeSpace::verif_id(&n.inner())}),
                TypeDetails::Option(i) => json!({"k":"option","id":TypeSpace::verif_id(&i)}),
                TypeDetails::Vec(i) => json!({"k":"vec","id":TypeSpace::verif_id(&i)}),
                TypeDetails::Set(i) => json!({"k":"set","id":TypeSpace::verif_id(&i)}),
                TypeDetails::Box(i) => json!({"k":"box","id":TypeSpace::verif_id(&i)}),
                TypeDetails::Map(k, v) => json!({"k":"map","key":TypeSpace::verif_id(&k),"value":TypeSpace::verif_id(&v)}),
                TypeDetails::Tuple(t) => json!({"k":"tuple","ids":ids(t)}),
                TypeDetails::Array(i, n) => json!({"k":"array","id":TypeSpace::verif_id(&i),"len":n}),
                TypeDetails::Builtin(n) => json!({"k":"builtin","name":n}),
                TypeDetails::Unit => json!({"k":"unit"}),
                TypeDetails::String => json!({"k":"string"}),
            };
            let hi = |w: TypeSpaceImpl| -> Value {
                match std::panic::catch_unwind(std::panic::AssertUnwindSafe(|| ty.has_impl(w))) {
                    Ok(b) => json!(b),
                    Err(_) => json!("panic"),
                }
            };
            json!({
                "id": raw,
                "name": ty.name(),
                "ident": ty.ident().to_string(),
                "param_ident": ty.parameter_ident().to_string(),
                "describe": ty.describe(),
                "details": details,
                "has_impl": {"FromStr": hi(TypeSpaceImpl::FromStr), "Display": hi(TypeSpaceImpl::Display), "Default": hi(TypeSpaceImpl::Default)},
                "builder": ty.builder().map(|b| b.to_string()),
            })
        })
        .collect()
}

fn attr_derives(attrs: &[syn::Attribute]) -> Vec<String> {
    let mut out = vec![];
    for a in attrs {
        if a.path().is_ident("derive") {
            let _ = a.parse_nested_meta(|m| {
                out.push(m.path.to_token_stream().to_string().replace(' ', ""));
                Ok(())
            });
        }
    }
    out
}

fn attr_serde(attrs: &[syn::Attribute]) -> Vec<Value> {
    let mut out = vec![];
    for a in attrs {
        if a.path().is_ident("serde") {
            let _ = a.parse_nested_meta(|m| {
                let k = m.path.to_token_stream().to_string().replace(' ', "");
                if let Ok(v) = m.value() {
                    let lit: syn::LitStr = v.parse()?;
                    out.push(json!([k, lit.value()]));
                } else {
                    out.push(json!([k]));
                }
                Ok(())
            });
        }
    }
    out
}

fn vis_str(v: &syn::Visibility) -> &'static str {
    match v {
        syn::Visibility::Public(_) => "pub",
        syn::Visibility::Restricted(_) => "restricted",
        syn::Visibility::Inherited => "private",
    }
}

fn ty_str(t: &syn::Type) -> String {
    t.to_token_stream().to_string()
}

fn scan_fields(f: &syn::Fields) -> Value {
    match f {
        syn::Fields::Named(n) => json!({"k":"named","fields": n.named.iter().map(|f| json!({
            "name": f.ident.as_ref().unwrap().to_string(), "vis": vis_str(&f.vis), "ty": ty_str(&f.ty),
            "serde": attr_serde(&f.attrs)})).collect::<Vec<_>>()}),
        syn::Fields::Unnamed(u) => json!({"k":"tuple","fields": u.unnamed.iter().map(|f| json!({
            "vis": vis_str(&f.vis), "ty": ty_str(&f.ty), "serde": attr_serde(&f.attrs)})).collect::<Vec<_>>()}),
        syn::Fields::Unit => json!({"k":"unit"}),
    }
}

fn scan_items(items: &[syn::Item], module: &str, out_items: &mut Vec<Value>, out_impls: &mut Vec<Value>) {
    for it in items {
        match it {
            syn::Item::Struct(s) => out_items.push(json!({
                "mod": module, "kind": "struct", "name": s.ident.to_string(), "vis": vis_str(&s.vis),
                "derives": attr_derives(&s.attrs), "serde": attr_serde(&s.attrs), "fields": scan_fields(&s.fields)})),
            syn::Item::Enum(e) => out_items.push(json!({
                "mod": module, "kind": "enum", "name": e.ident.to_string(), "vis": vis_str(&e.vis),
                "derives": attr_derives(&e.attrs), "serde": attr_serde(&e.attrs),
                "variants": e.variants.iter().map(|v| json!({
                    "name": v.ident.to_string(), "serde": attr_serde(&v.attrs), "fields": scan_fields(&v.fields)})).collect::<Vec<_>>()})),
            syn::Item::Fn(f) => out_items.push(json!({
                "mod": module, "kind": "fn", "name": f.sig.ident.to_string(), "vis": vis_str(&f.vis),
                "ret": match &f.sig.output { syn::ReturnType::Default => "()".to_string(), syn::ReturnType::Type(_, t) => ty_str(t) },
                "body": f.block.to_token_stream().to_string()})),
            syn::Item::Impl(i) => {
                let fns: Vec<String> = i.items.iter().filter_map(|x| match x {
                    syn::ImplItem::Fn(f) => Some(f.sig.ident.to_string()), _ => None }).collect();
                out_impls.push(json!({
                    "mod": module,
                    "trait": i.trait_.as_ref().map(|(_, p, _)| p.to_token_stream().to_string()),
                    "for": ty_str(&i.self_ty),
                    "generics": i.generics.to_token_stream().to_string(),
                    "fns": fns,
                    "body": i.to_token_stream().to_string(),
                }))
            }
            syn::Item::Mod(m) => {
                if let Some((_, items)) = &m.content {
                    let sub = if module.is_empty() { m.ident.to_string() } else { format!("{}::{}", module, m.ident) };
                    out_items.push(json!({"mod": module, "kind": "mod", "name": m.ident.to_string(), "vis": vis_str(&m.vis)}));
                    scan_items(items, &sub, out_items, out_impls);
                }
            }
            other => out_items.push(json!({"mod": module, "kind": "other", "text": other.to_token_stream().to_string()})),
        }
    }
}

/// syn scan of generated code: items and impls (channel K4).
pub fn scan_code(file: &syn::File) -> Value {
    let mut items = vec![];
    let mut impls = vec![];
    scan_items(&file.items, "", &mut items, &mut impls);
    json!({"items": items, "impls": impls})
}

/// Render a type space: {r:"ok", code, scan} | {r:"panic"} | {r:"unparsable"}.
pub fn render(ts: &TypeSpace, want_code: bool) -> Value {
    let r = std::panic::catch_unwind(std::panic::AssertUnwindSafe(|| ts.to_stream()));
    let tokens = match r {
        Ok(t) => t,
        Err(e) => return json!({"r":"render-panic","msg":panic_msg(&e)}),
    };
    let text = tokens.to_string();
    match syn::parse2::<syn::File>(tokens) {
        Ok(f) => {
            let scan = scan_code(&f);
            let mut v = json!({"r":"ok","scan":scan,"tokens":text});
            if want_code {
                v["code"] = json!(prettyplease::unparse(&f));
            }
            v
        }
        Err(e) => json!({"r":"unparsable","msg":e.to_string(),"tokens":text}),
    }
}

/// case: {"settings":{..}, "steps":[step..], "code":bool}
/// result: {"steps":[..], "render":{..}, "dump":{..}, "types":[..], "pre_cycles":[..]}
pub fn gen_case(case: &Value) -> Value {
    let settings = match std::panic::catch_unwind(|| settings_from_json(&case["settings"])) {
        Ok(s) => s,
        Err(e) => return json!({"r":"settings-panic","msg":panic_msg(&e)}),
    };
    let mut ts = TypeSpace::new(&settings);
    let _ = typify_impl::verif::take_pre_cycles();
    let _ = typify_impl::verif::take_name_reuse();
    let mut steps = vec![];
    let empty = vec![];
    for st in case["steps"].as_array().unwrap_or(&empty) {
        let r = ingest_step(&mut ts, st);
        steps.push(r);
    }
    let pre = typify_impl::verif::take_pre_cycles();
    // assign_type resolved a named type to an existing type of that name although the two differ
    let reuse = typify_impl::verif::take_name_reuse();
    let all_ok = steps.iter().all(|s| s["r"] == "ok");
    let mut out = json!({"r":"done","steps":steps,"all_ok":all_ok,"name_reuse":reuse});
    if all_ok || case["render_anyway"].as_bool().unwrap_or(false) {
        out["render"] = render(&ts, case["code"].as_bool().unwrap_or(true));
        out["dump"] = ts.verif_dump();
        out["types"] = match std::panic::catch_unwind(std::panic::AssertUnwindSafe(|| api_types(&ts))) {
            Ok(t) => json!(t),
            Err(e) => json!({"panic": panic_msg(&e)}),
        };
        out["uses"] = json!({"chrono": ts.uses_chrono(), "uuid": ts.uses_uuid(),
            "serde_json": ts.uses_serde_json(), "regress": ts.uses_regress()});
        if case["pre_cycles"].as_bool().unwrap_or(false) {
            out["pre_cycles"] = json!(pre);
        }
    }
    out
}

/// case: {"patterns":[p..], "natives":[ty..], "strings":[s..]} ->
/// {"re": [[bool per string] per pattern] (null = invalid pattern), "native": [[bool per string] per type]}
pub fn strfacts(case: &Value) -> Value {
    let strs: Vec<String> = case["strings"].as_array().map(|a| a.iter().map(|x| x.as_str().unwrap_or("").to_string()).collect()).unwrap_or_default();
    let empty = vec![];
    let re: Vec<Value> = case["patterns"].as_array().unwrap_or(&empty).iter().map(|p| {
        match regress::Regex::new(p.as_str().unwrap_or("")) {
            Ok(r) => json!(strs.iter().map(|s| r.find(s).is_some()).collect::<Vec<_>>()),
            Err(_) => Value::Null,
        }
    }).collect();
    let native: Vec<Value> = case["natives"].as_array().unwrap_or(&empty).iter().map(|t| {
        let t = t.as_str().unwrap_or("").replace(' ', "");
        json!(strs.iter().map(|s| {
            let q = serde_json::Value::String(s.clone());
            match t.as_str() {
                "::uuid::Uuid" => serde_json::from_value::<uuid::Uuid>(q).is_ok(),
                "::chrono::naive::NaiveDate" => serde_json::from_value::<chrono::naive::NaiveDate>(q).is_ok(),
                "::chrono::DateTime<::chrono::offset::Utc>" => serde_json::from_value::<chrono::DateTime<chrono::offset::Utc>>(q).is_ok(),
                "::std::net::IpAddr" => serde_json::from_value::<std::net::IpAddr>(q).is_ok(),
                "::std::net::Ipv4Addr" => serde_json::from_value::<std::net::Ipv4Addr>(q).is_ok(),
                "::std::net::Ipv6Addr" => serde_json::from_value::<std::net::Ipv6Addr>(q).is_ok(),
                _ => false,
            }
        }).collect::<Vec<_>>())
    }).collect();
    json!({"re": re, "native": native})
}
